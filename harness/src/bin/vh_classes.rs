//! `vh_classes`: drives laythe_core::object::{Class, Instance} through the public API with a
//! `NoContext` `GcHooks`, one request per stdin line, one canonical line per request on stdout.
//! The same protocol is spoken by the Lean driver `drv_classes classes` (Model/Classes.lean).
//!
//! Each op mirrors what the VM does for the corresponding instruction:
//!   class C        = op_class   (Class::bare)
//!   inherit C P    = op_inherit (inherit + meta_from_super)
//!   derive C P     = Class::with_inheritance (what natives/modules use)
//!   field C f      = op_field   (add_field)            -> index of f afterwards
//!   method C m id  = op_method  (add_method)
//!   static C m id  = op_static_method (meta_class_mut().add_method)
//!   instance I C   = call_class' allocation (manage_obj(class)) -> slot count
//!   get/set I f    = Instance::get_field/set_field (what invoke / by-name ops consult)
//!   geti/seti I k  = op_get_prop/op_set_prop (fixed index)
use laythe_core::{
  hooks::{GcHooks, NoContext},
  object::{Class, Instance},
  support::test_object_class,
  val,
  value::Value,
  ObjRef,
};
use std::collections::HashMap;
use std::io::{BufRead, Write};
use std::panic::{catch_unwind, AssertUnwindSafe};

struct World {
  classes: HashMap<String, ObjRef<Class>>,
  instances: HashMap<String, Instance>,
}

fn show_val(v: Value) -> String {
  if v.is_nil() {
    "nil".to_string()
  } else if v.is_num() {
    format!("{}", v.to_num() as i64)
  } else {
    "?".to_string()
  }
}

fn show_opt(v: Option<Value>) -> String {
  match v {
    Some(v) => show_val(v),
    None => "-".to_string(),
  }
}

fn panic_msg(e: Box<dyn std::any::Any + Send>) -> String {
  let msg = if let Some(s) = e.downcast_ref::<&str>() {
    s.to_string()
  } else if let Some(s) = e.downcast_ref::<String>() {
    s.clone()
  } else {
    "?".to_string()
  };
  format!("PANIC:{}", msg.replace('\n', " "))
}

fn new_world(hooks: &GcHooks) -> World {
  let object = test_object_class(hooks);
  let mut classes = HashMap::new();
  classes.insert("Object".to_string(), object);
  // `Class` is Object's metaclass' metaclass (see support::test_object_class)
  if let Some(meta) = object.meta_class() {
    if let Some(class_class) = meta.meta_class() {
      classes.insert("Class".to_string(), *class_class);
    }
  }
  World { classes, instances: HashMap::new() }
}

fn main() {
  std::panic::set_hook(Box::new(|_| {}));
  let context = NoContext::default();
  let hooks = GcHooks::new(&context);
  let mut w = new_world(&hooks);
  let stdin = std::io::stdin();
  let stdout = std::io::stdout();
  let mut out = std::io::BufWriter::new(stdout.lock());
  for line in stdin.lock().lines() {
    let line = line.unwrap();
    let toks: Vec<&str> = line.trim().split(' ').collect();
    let res: String = match toks.as_slice() {
      ["reset"] => {
        w = new_world(&hooks);
        "ok".into()
      },
      ["class", c] => {
        let class: ObjRef<Class> = hooks.manage_obj(Class::bare(hooks.manage_str(*c)));
        w.classes.insert(c.to_string(), class);
        "ok".into()
      },
      ["inherit", c, p] => match (w.classes.get(*c).copied(), w.classes.get(*p).copied()) {
        (Some(mut class), Some(sup)) => {
          let r = catch_unwind(AssertUnwindSafe(|| {
            class.inherit(&hooks, sup);
            class.meta_from_super(&hooks);
          }));
          match r {
            Ok(()) => "ok".into(),
            Err(e) => panic_msg(e),
          }
        },
        _ => "noclass".into(),
      },
      ["derive", c, p] => match w.classes.get(*p).copied() {
        Some(sup) => {
          let r = catch_unwind(AssertUnwindSafe(|| Class::with_inheritance(&hooks, hooks.manage_str(*c), sup)));
          match r {
            Ok(class) => {
              w.classes.insert(c.to_string(), class);
              "ok".into()
            },
            Err(e) => panic_msg(e),
          }
        },
        None => "noclass".into(),
      },
      ["field", c, f] => match w.classes.get(*c).copied() {
        Some(mut class) => {
          let name = hooks.manage_str(*f);
          class.add_field(name);
          match class.get_field_index(&name) {
            Some(i) => i.to_string(),
            None => "-".into(),
          }
        },
        None => "noclass".into(),
      },
      ["method", c, m, id] => match (w.classes.get(*c).copied(), id.parse::<u32>()) {
        (Some(mut class), Ok(id)) => {
          class.add_method(hooks.manage_str(*m), val!(id as f64));
          "ok".into()
        },
        _ => "noclass".into(),
      },
      ["static", c, m, id] => match (w.classes.get(*c).copied(), id.parse::<u32>()) {
        (Some(mut class), Ok(id)) => match class.meta_class_mut() {
          Some(meta) => {
            meta.add_method(hooks.manage_str(*m), val!(id as f64));
            "ok".into()
          },
          None => "nometa".into(),
        },
        _ => "noclass".into(),
      },
      ["lookup", c, m] => match w.classes.get(*c) {
        Some(class) => show_opt(class.get_method(&hooks.manage_str(*m))),
        None => "noclass".into(),
      },
      ["slookup", c, m] => match w.classes.get(*c) {
        Some(class) => match class.meta_class() {
          Some(meta) => show_opt(meta.get_method(&hooks.manage_str(*m))),
          None => "nometa".into(),
        },
        None => "noclass".into(),
      },
      ["init", c] => match w.classes.get(*c) {
        Some(class) => show_opt(class.init()),
        None => "noclass".into(),
      },
      ["fieldindex", c, f] => match w.classes.get(*c) {
        Some(class) => match class.get_field_index(&hooks.manage_str(*f)) {
          Some(i) => i.to_string(),
          None => "-".into(),
        },
        None => "noclass".into(),
      },
      ["nfields", c] => match w.classes.get(*c) {
        Some(class) => class.fields().to_string(),
        None => "noclass".into(),
      },
      ["super", c] => match w.classes.get(*c) {
        Some(class) => match class.super_class() {
          Some(s) => s.name().to_string(),
          None => "-".into(),
        },
        None => "noclass".into(),
      },
      ["meta", c] => match w.classes.get(*c) {
        Some(class) => match class.meta_class() {
          Some(s) => s.name().to_string(),
          None => "-".into(),
        },
        None => "noclass".into(),
      },
      ["metasuper", c] => match w.classes.get(*c) {
        Some(class) => match class.meta_class() {
          Some(m) => match m.super_class() {
            Some(s) => s.name().to_string(),
            None => "-".into(),
          },
          None => "nometa".into(),
        },
        None => "noclass".into(),
      },
      ["issub", c, d] => match (w.classes.get(*c), w.classes.get(*d).copied()) {
        (Some(class), Some(other)) => class.is_subclass(other).to_string(),
        _ => "noclass".into(),
      },
      ["instance", i, c] => match w.classes.get(*c).copied() {
        Some(class) => {
          let r = catch_unwind(AssertUnwindSafe(|| {
            let inst: Instance = hooks.manage_obj(class);
            inst
          }));
          match r {
            Ok(inst) => {
              w.instances.insert(i.to_string(), inst);
              inst.len().to_string()
            },
            Err(e) => panic_msg(e),
          }
        },
        None => "noclass".into(),
      },
      ["set", i, f, v] => match (w.instances.get(*i).copied(), v.parse::<u32>()) {
        (Some(mut inst), Ok(v)) => {
          let r = catch_unwind(AssertUnwindSafe(|| inst.set_field(hooks.manage_str(*f), val!(v as f64))));
          match r {
            Ok(true) => "ok".into(),
            Ok(false) => "nofield".into(),
            Err(e) => panic_msg(e),
          }
        },
        _ => "noinst".into(),
      },
      ["get", i, f] => match w.instances.get(*i).copied() {
        Some(inst) => {
          let r = catch_unwind(AssertUnwindSafe(|| inst.get_field(hooks.manage_str(*f)).copied()));
          match r {
            Ok(Some(v)) => show_val(v),
            Ok(None) => "nofield".into(),
            Err(e) => panic_msg(e),
          }
        },
        None => "noinst".into(),
      },
      ["geti", i, k] => match (w.instances.get(*i).copied(), k.parse::<usize>()) {
        (Some(inst), Ok(k)) => {
          if k < inst.len() {
            show_val(inst[k])
          } else {
            "oob".into()
          }
        },
        _ => "noinst".into(),
      },
      ["seti", i, k, v] => match (w.instances.get(*i).copied(), k.parse::<usize>(), v.parse::<u32>()) {
        (Some(mut inst), Ok(k), Ok(v)) => {
          if k < inst.len() {
            inst[k] = val!(v as f64);
            "ok".into()
          } else {
            "oob".into()
          }
        },
        _ => "noinst".into(),
      },
      ["classof", i] => match w.instances.get(*i) {
        Some(inst) => inst.class().name().to_string(),
        None => "noinst".into(),
      },
      _ => "bad-op".into(),
    };
    writeln!(out, "{}", res).unwrap();
  }
}
