//! Verification harness: drives the real Laythe code in-process and speaks the same line
//! protocols as the Lean driver (`/verif/lean/Driver`).
use vharness::{chanq, dump, peephole, run};

fn main() {
  let args: Vec<String> = std::env::args().collect();
  let code = match args.get(1).map(|s| s.as_str()) {
    Some("chanq") => chanq::main(),
    Some("run") => run::main(&args[2..]),
    Some("runbatch") => run::main_batch(),
    Some("peephole") => peephole::main(),
    Some("dump") => dump::main(&args[2..]),
    _ => {
      eprintln!("usage: vharness <chanq|run> ...");
      2
    },
  };
  std::process::exit(code);
}
