//! `vh_runchk`: `vharness runbatch` under the layout-checking global allocator; every record gets
//! `"layout_mismatches"` (blocks released with a size/alignment other than the one they were obtained with).
use vharness::chkalloc::CheckingAlloc;

#[global_allocator]
static GLOBAL: CheckingAlloc = CheckingAlloc;

fn main() {
  std::process::exit(vharness::run::main_batch());
}
