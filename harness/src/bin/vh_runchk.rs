//! `vh_runchk`: `vharness runbatch` under the checking global allocator; every record gets
//! `"layout_mismatches"` (blocks released with a size/alignment other than the one they were obtained with)
//! and `"global_leak"`: what the system allocator still holds after the vm and everything the run created
//! are gone, compared with what it held immediately before the run (C20: garbage is reclaimed = every block
//! the runtime lets go of is handed back).  One-time process-wide initialisations (lazy statics of a native
//! used for the first time) would show up once: a non-zero difference is therefore measured again on a second
//! run of the same request in the same process, and that second figure is the one reported.
use std::io::{BufRead, Write};
use std::path::PathBuf;
use vharness::chkalloc::{self, CheckingAlloc};
use vharness::run::{json_str, outcome_json, parse_opts, run_with, Opts};

#[global_allocator]
static GLOBAL: CheckingAlloc = CheckingAlloc;

struct Measured {
  json: String,
  judged: bool,
  blocks: isize,
  bytes: isize,
  sizes: Vec<usize>,
}

fn measure(opts: &Opts, file: &str) -> Measured {
  // the compile log of the verification hooks accumulates per thread: it is the harness', not the run's
  drop(laythe_vm::compiler::verif_peephole::take_log());
  let (b0, y0) = chkalloc::live();
  let s0 = chkalloc::next_serial();
  // everything the run creates (source text, vm, captured output, the outcome) is dropped at the end of this
  // block, except the record itself
  let (json, judged) = {
    if opts.repl {
      let o = run_with(PathBuf::from("repl"), "", opts);
      (outcome_json(file, &o), false)
    } else {
      match std::fs::read_to_string(file) {
        Ok(src) => {
          let o = run_with(PathBuf::from(file), &src, opts);
          // a host panic or a step limit inside a native leaves the vm undropped on purpose: not judged
          let judged = o.status.starts_with("Ok:") || o.status.starts_with("RuntimeError:") || o.status.starts_with("CompileError:");
          (outcome_json(file, &o), judged)
        },
        Err(e) => (
          format!("{{\"file\":{},\"status\":\"UNREADABLE\",\"stdout\":\"\",\"stderr\":{}}}", json_str(file), json_str(&e.to_string())),
          false,
        ),
      }
    }
  };
  drop(laythe_vm::compiler::verif_peephole::take_log());
  let (b1, y1) = chkalloc::live();
  let own = chkalloc::size_of(json.as_ptr() as usize).unwrap_or(0);
  let blocks = b1 as isize - b0 as isize - 1;
  let bytes = y1 as isize - y0 as isize - own as isize;
  let mut sizes = vec![];
  if judged && (blocks != 0 || bytes != 0) {
    for (p, size, _) in chkalloc::live_since(s0, 12) {
      if p != json.as_ptr() as usize && sizes.len() < 10 {
        sizes.push(size);
      }
    }
  }
  Measured { json, judged, blocks, bytes, sizes }
}

fn main() {
  std::panic::set_hook(Box::new(|_| {}));
  let stdout = std::io::stdout();
  for line in std::io::stdin().lock().lines() {
    let line = line.unwrap();
    let words: Vec<String> = line.split_whitespace().map(|s| s.to_string()).collect();
    let (opts, files) = parse_opts(&words);
    for f in files {
      let first = measure(&opts, &f);
      let (m, rerun, first_delta) = if first.judged && (first.blocks != 0 || first.bytes != 0) {
        let fd = (first.blocks, first.bytes);
        drop(first);
        (measure(&opts, &f), true, fd)
      } else {
        let fd = (first.blocks, first.bytes);
        (first, false, fd)
      };
      let mut rec = m.json.clone();
      if rec.ends_with('}') {
        rec.pop();
        rec.push_str(&format!(
          ",\"global_leak\":{{\"judged\":{},\"blocks\":{},\"bytes\":{},\"rerun\":{},\"first_run\":[{},{}],\"sizes\":{:?}}}}}",
          m.judged, m.blocks, m.bytes, rerun, first_delta.0, first_delta.1, m.sizes
        ));
      }
      let mut out = stdout.lock();
      writeln!(out, "{}", rec).unwrap();
      out.flush().unwrap();
    }
  }
}
