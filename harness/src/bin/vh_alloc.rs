//! `vh_alloc`: drives laythe_core::Allocator directly with a mock root set (line protocol).
//!
//! ops:  box <src|->        new LyBox holding object <src> (or nil)
//!       tuple <src>*       new Tuple
//!       str <text>         manage_str
//!       waiter             plain-heap object (ChannelWaiter), no references
//!       setbox <box> <src|->
//!       root <slot> <src|->
//!       temp <src> / poptemp <n>
//!       collect auto|full|nursery
//!       sched every <k> | sched off ; threshold <bytes>
//!       read <idx>         observe an object (kind and contents by index)
//!       stats
//!       leaks              C20: blocks that left the allocator's owner lists during some earlier op of this history
//!                          (a collection, explicit or triggered by an allocation) and are still live in the checking
//!                          global allocator's table, i.e. were never handed back: `leaks <n> dropped <m> [first size]`
//!       reset
use laythe_core::{
  allocator_verif::{self, Schedule},
  managed::{Trace, TraceRoot},
  object::{ChannelWaiter, LyBox, ObjectKind},
  val,
  value::{Value, VALUE_NIL},
  Allocator, Ref,
};
use std::cell::RefCell;
use vharness::chkalloc::{self, CheckingAlloc};

#[global_allocator]
static GLOBAL: CheckingAlloc = CheckingAlloc;
use std::io::{BufRead, Write};

struct Roots {
  slots: RefCell<Vec<Value>>,
}

impl TraceRoot for Roots {
  fn trace(&self) {
    for v in self.slots.borrow().iter() {
      v.trace();
    }
  }

  fn trace_debug(&self, log: &mut dyn Write) {
    for v in self.slots.borrow().iter() {
      v.trace_debug(log);
    }
  }

  fn can_collect(&self) -> bool {
    true
  }
}

enum Entry {
  Obj(Value),
  Waiter(Ref<ChannelWaiter>),
}

fn main() {
  let stdin = std::io::stdin();
  let stdout = std::io::stdout();
  let mut out = std::io::BufWriter::new(stdout.lock());
  let mut gc = Allocator::default();
  let mut roots = Roots { slots: RefCell::new(vec![VALUE_NIL; 8]) };
  let mut table: Vec<Entry> = vec![];
  allocator_verif::set_schedule(Schedule::Default, 1);
  allocator_verif::set_force_full(None);
  // C20 leak oracle: (dropped from the owner lists, of these never handed back, size of the first such block)
  let mut leak_dropped = 0usize;
  let mut leak_unreleased = 0usize;
  let mut leak_first = 0usize;
  for line in stdin.lock().lines() {
    let line = line.unwrap();
    let toks: Vec<&str> = line.split_whitespace().collect();
    // what the allocator owns before this op: (address, serial number in the global allocator's table)
    let owned_before: Vec<(usize, usize)> = if toks.first() == Some(&"reset") || toks.first() == Some(&"leaks") {
      vec![]
    } else {
      gc.verif_blocks().iter().map(|(p, _)| (*p, chkalloc::serial_of(*p).unwrap_or(0))).collect()
    };
    let value_of = |table: &Vec<Entry>, t: &str| -> Option<Value> {
      if t == "-" {
        return Some(VALUE_NIL);
      }
      match table.get(t.parse::<usize>().ok()?)? {
        Entry::Obj(v) => Some(*v),
        Entry::Waiter(_) => None,
      }
    };
    let find = |table: &Vec<Entry>, v: Value| -> Option<usize> {
      table.iter().rposition(|e| matches!(e, Entry::Obj(o) if *o == v))
    };
    let res: String = match toks.as_slice() {
      ["reset"] => {
        // leak the old allocator: its objects may be referenced by nothing we still use
        std::mem::forget(std::mem::take(&mut gc));
        gc = Allocator::default();
        roots = Roots { slots: RefCell::new(vec![VALUE_NIL; 8]) };
        table.clear();
        allocator_verif::set_schedule(Schedule::Default, 1);
        allocator_verif::set_force_full(None);
        "ok".into()
      },
      ["box", src] => match value_of(&table, src) {
        Some(v) => {
          let before = gc.allocated();
          let stats0 = gc.verif_stats().gc_count;
          let b = gc.manage_obj(LyBox::new(v), &roots);
          let collected = gc.verif_stats().gc_count != stats0;
          table.push(Entry::Obj(val!(b)));
          let size = if collected { 0 } else { gc.allocated() - before };
          format!("new {} {} {}", table.len() - 1, size, collected as u8)
        },
        None => "bad-op".into(),
      },
      ["tuple", srcs @ ..] => {
        let vals: Option<Vec<Value>> = srcs.iter().map(|s| value_of(&table, s)).collect();
        match vals {
          Some(vals) => {
            let before = gc.allocated();
            let stats0 = gc.verif_stats().gc_count;
            let t = gc.manage_obj(&*vals, &roots);
            let collected = gc.verif_stats().gc_count != stats0;
            table.push(Entry::Obj(val!(t)));
            let size = if collected { 0 } else { gc.allocated() - before };
            format!("new {} {} {}", table.len() - 1, size, collected as u8)
          },
          None => "bad-op".into(),
        }
      },
      ["str", text] => {
        let before = gc.allocated();
        let stats0 = gc.verif_stats().gc_count;
        let existed = gc.has_str(text).is_some();
        let s = gc.manage_str(*text, &roots);
        let collected = gc.verif_stats().gc_count != stats0;
        let v = val!(s);
        if existed {
          match find(&table, v) {
            Some(i) => format!("hit {}", i),
            None => "hit ?".into(),
          }
        } else {
          table.push(Entry::Obj(v));
          let size = if collected { 0 } else { gc.allocated() - before };
          format!("new {} {} {}", table.len() - 1, size, collected as u8)
        }
      },
      ["waiter"] => {
        let before = gc.allocated();
        let stats0 = gc.verif_stats().gc_count;
        let w: Ref<ChannelWaiter> = gc.manage(ChannelWaiter::new(true), &roots);
        let collected = gc.verif_stats().gc_count != stats0;
        table.push(Entry::Waiter(w));
        let size = if collected { 0 } else { gc.allocated() - before };
        format!("new {} {} {}", table.len() - 1, size, collected as u8)
      },
      ["setbox", b, src] => match (value_of(&table, b), value_of(&table, src)) {
        (Some(bv), Some(v)) if bv.is_obj() && bv.to_obj().is_kind(ObjectKind::LyBox) => {
          bv.to_obj().to_box().value = v;
          "ok".into()
        },
        _ => "bad-op".into(),
      },
      ["root", slot, src] => match (slot.parse::<usize>(), value_of(&table, src)) {
        (Ok(k), Some(v)) if k < 8 => {
          roots.slots.borrow_mut()[k] = v;
          "ok".into()
        },
        _ => "bad-op".into(),
      },
      ["temp", src] => match value_of(&table, src) {
        Some(v) => {
          gc.push_root(v);
          "ok".into()
        },
        None => "bad-op".into(),
      },
      ["poptemp", n] => match n.parse::<usize>() {
        Ok(n) if n <= gc.temp_roots() => {
          gc.pop_roots(n);
          "ok".into()
        },
        _ => "bad-op".into(),
      },
      ["collect", mode] => {
        allocator_verif::set_force_full(match *mode {
          "full" => Some(true),
          "nursery" => Some(false),
          _ => None,
        });
        gc.collect_garbage(&roots);
        allocator_verif::set_force_full(None);
        "ok".into()
      },
      ["sched", "every", k] => {
        allocator_verif::set_schedule(Schedule::EveryK(k.parse().unwrap_or(0)), 1);
        "ok".into()
      },
      ["sched", "off"] => {
        allocator_verif::set_schedule(Schedule::Default, 1);
        "ok".into()
      },
      ["threshold", n] => {
        gc.verif_set_next_gc(n.parse().unwrap_or(usize::MAX));
        "ok".into()
      },
      ["read", idx] => match idx.parse::<usize>().ok().and_then(|i| table.get(i)) {
        Some(Entry::Waiter(w)) => format!("waiter {}", w.is_runnable() as u8),
        Some(Entry::Obj(v)) => {
          let o = v.to_obj();
          if o.is_kind(ObjectKind::LyBox) {
            let inner = o.to_box().value;
            if inner.is_obj() {
              match find(&table, inner) {
                Some(i) => format!("box {}", i),
                None => "box ?".into(),
              }
            } else {
              "box -".into()
            }
          } else if o.is_kind(ObjectKind::Tuple) {
            let t = o.to_tuple();
            let items: Vec<String> = t
              .iter()
              .map(|x| {
                if x.is_obj() {
                  find(&table, *x).map(|i| i.to_string()).unwrap_or_else(|| "?".into())
                } else {
                  "-".into()
                }
              })
              .collect();
            format!("tuple {}", items.join(" ")).trim_end().to_string()
          } else if o.is_kind(ObjectKind::String) {
            format!("str {}", &*o.to_str())
          } else {
            "other".into()
          }
        },
        None => "bad-op".into(),
      },
      ["stats"] => {
        let s = gc.verif_stats();
        format!(
          "bytes={} next={} gc={} heap={} old={} nursery={} heap_b={} old_b={} nursery_b={} intern={} temp={}",
          s.bytes_allocated, s.next_gc, s.gc_count, s.heap_len, s.obj_heap_len, s.nursery_len, s.heap_bytes,
          s.obj_heap_bytes, s.nursery_bytes, s.intern_len, s.temp_roots
        )
      },
      ["leaks"] => {
        if leak_unreleased == 0 {
          format!("leaks 0 dropped {}", leak_dropped)
        } else {
          format!("leaks {} dropped {} first-size {}", leak_unreleased, leak_dropped, leak_first)
        }
      },
      ["layout"] => {
        if chkalloc::mismatches() == 0 {
          "layout 0".into()
        } else {
          format!("layout {} {}", chkalloc::mismatches(), chkalloc::last_mismatch())
        }
      },
      _ => "bad-op".into(),
    };
    if toks.first() == Some(&"reset") {
      leak_dropped = 0;
      leak_unreleased = 0;
      leak_first = 0;
    } else if !owned_before.is_empty() {
      // every block that is no longer owned must have been handed back to the system allocator
      let owned_after: std::collections::HashSet<usize> = gc.verif_blocks().iter().map(|(p, _)| *p).collect();
      for (p, serial) in owned_before.iter() {
        if !owned_after.contains(p) || chkalloc::serial_of(*p) != Some(*serial) {
          leak_dropped += 1;
          if *serial != 0 && chkalloc::serial_of(*p) == Some(*serial) {
            leak_unreleased += 1;
            if leak_first == 0 {
              leak_first = chkalloc::size_of(*p).unwrap_or(0);
            }
          }
        }
      }
    }
    writeln!(out, "{}", res).unwrap();
    out.flush().unwrap();
  }
  std::mem::forget(gc);
}
