//! `vh_repl`: session file names on stdin (one per line); each file is fed line by line to
//! `Vm::repl`.  Prints one JSON record per session: status, stdout, stderr and, from the compile
//! log hook, for every entry that reached the compiler the functions it compiled (the script last):
//! the module-symbol instructions of the unoptimised stream (`D<slot>` DeclareModSym, `G<slot>`
//! GetModSym, `S<slot>` SetModSym), the inline-cache sites of the optimised stream (`P`/`I`), and — so
//! that the check can read the cache id the encoder gave every site — the instruction names of the
//! optimised stream (`post`) with the encoded bytes (`code`, hex).
use laythe_vm::compiler::verif_peephole;
use std::io::{BufRead, Write};
use std::path::PathBuf;
use vharness::run::{json_str, run_with, Opts};

fn field<'a>(rec: &'a str, key: &str) -> &'a str {
  for part in rec.split('|') {
    if let Some(rest) = part.strip_prefix(key) {
      return rest.trim_start();
    }
  }
  ""
}

fn fun_name(rec: &str) -> String {
  // FUN name="g" arity=...
  let head = rec.split('|').next().unwrap_or("");
  match head.find("name=\"") {
    Some(i) => {
      let rest = &head[i + 6..];
      rest[..rest.find('"').unwrap_or(rest.len())].to_string()
    },
    None => "?".to_string(),
  }
}

fn main() {
  std::panic::set_hook(Box::new(|_| {}));
  let stdout = std::io::stdout();
  for line in std::io::stdin().lock().lines() {
    let file = line.unwrap().trim().to_string();
    if file.is_empty() {
      continue;
    }
    let content = std::fs::read_to_string(&file).unwrap_or_default();
    let _ = verif_peephole::take_log();
    let opts = Opts { gc: "default".to_string(), repl: true, stdin: content, ..Opts::default() };
    let o = run_with(PathBuf::from("repl"), "", &opts);
    let mut entries: Vec<String> = vec![];
    let mut cur: Vec<String> = vec![];
    for rec in verif_peephole::take_log() {
      let name = fun_name(&rec);
      let mut syms: Vec<String> = vec![];
      for ins in field(&rec, "PRE ").split(';') {
        let ins = ins.split('@').next().unwrap_or("");
        let w: Vec<&str> = ins.split_whitespace().collect();
        match w.as_slice() {
          ["DeclareModSym", _, s] => syms.push(format!("D{}", s)),
          ["GetModSym", s] => syms.push(format!("G{}", s)),
          ["SetModSym", s] => syms.push(format!("S{}", s)),
          _ => {},
        }
      }
      let mut sites: Vec<&str> = vec![];
      let mut post: Vec<&str> = vec![];
      for ins in field(&rec, "POST ").split(';') {
        match ins.trim() {
          "PropertySlot" => sites.push("P"),
          "InvokeSlot" => sites.push("I"),
          _ => {},
        }
        if let Some(w) = ins.split_whitespace().next() {
          post.push(w);
        }
      }
      cur.push(format!(
        "{{\"name\":{},\"syms\":{},\"sites\":{},\"post\":{},\"code\":{}}}",
        json_str(&name),
        json_str(&syms.join(",")),
        json_str(&sites.join(",")),
        json_str(&post.join(",")),
        json_str(field(&rec, "CODE ").trim())
      ));
      if name == "script" {
        entries.push(format!("[{}]", cur.join(",")));
        cur.clear();
      }
    }
    if !cur.is_empty() {
      entries.push(format!("[{}]", cur.join(",")));
    }
    let mut out = stdout.lock();
    writeln!(
      out,
      "{{\"file\":{},\"status\":{},\"stdout\":{},\"stderr\":{},\"entries\":[{}]}}",
      json_str(&file),
      json_str(&o.status),
      json_str(&o.stdout),
      json_str(&o.stderr),
      entries.join(",")
    )
    .unwrap();
    out.flush().unwrap();
  }
}
