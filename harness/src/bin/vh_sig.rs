//! `vh_sig`: drives the real `Native::check_if_valid_call`, `NativeSignature::check` and `Arity::check`
//! through laythe_core's public API (C16 tie; same line protocol as `lean/Driver/SigMain.lean`).
//!
//! request : `<F n | V n | D lo hi> ; <param kinds…> ; <f|m> ; <argument kinds…>`
//!           (for `m` the first argument kind is the receiver)
//! response: `civ=<r> sig=<r> arity=<r>` with r = `ok` | `len <class> <n>` | `type <i>` | `type ?` | `panic`
use laythe_core::{
  hooks::{GcHooks, Hooks, NoContext},
  list,
  managed::{DebugHeap, Trace},
  object::{
    Channel, Class, Closure, Enumerate, Enumerator, List, LyNative, Map, Method, Native, NativeMetaBuilder,
  },
  signature::{Arity, ArityError, ParameterBuilder, ParameterKind, SignatureError},
  support::{test_class, test_fun},
  val,
  value::{Value, VALUE_NIL},
  Call, Captures, ObjRef,
};
use std::{
  fmt,
  io::{BufRead, Write},
};

#[derive(Debug)]
struct Dummy {}
impl Trace for Dummy {
  fn trace(&self) {}
  fn trace_debug(&self, _: &mut dyn Write) {}
}
impl LyNative for Dummy {
  fn call(&self, _: &mut Hooks, _: &[Value]) -> Call {
    Call::Ok(VALUE_NIL)
  }
}

#[derive(Debug)]
struct EmptyIter {}
impl Trace for EmptyIter {
  fn trace(&self) {}
  fn trace_debug(&self, _: &mut dyn Write) {}
}
impl DebugHeap for EmptyIter {
  fn fmt_heap(&self, f: &mut fmt::Formatter, _: usize) -> fmt::Result {
    f.write_str("EmptyIter")
  }
}
impl Enumerate for EmptyIter {
  fn name(&self) -> &str {
    "Empty"
  }
  fn current(&self) -> Value {
    VALUE_NIL
  }
  fn next(&mut self, _: &mut Hooks) -> Call {
    Call::Ok(val!(false))
  }
  fn size_hint(&self) -> Option<usize> {
    Some(0)
  }
  fn as_debug(&self) -> &dyn DebugHeap {
    self
  }
}

fn parse_pkind(s: &str) -> Option<ParameterKind> {
  Some(match s {
    "object" => ParameterKind::Object,
    "bool" => ParameterKind::Bool,
    "number" => ParameterKind::Number,
    "string" => ParameterKind::String,
    "callable" => ParameterKind::Callable,
    _ => return None,
  })
}

fn parse_arity(toks: &[&str]) -> Option<Arity> {
  match toks {
    ["F", n] => Some(Arity::Fixed(n.parse().ok()?)),
    ["V", n] => Some(Arity::Variadic(n.parse().ok()?)),
    ["D", a, b] => Some(Arity::Default(a.parse().ok()?, b.parse().ok()?)),
    _ => None,
  }
}

const NAMES: [&str; 12] = ["p0", "p1", "p2", "p3", "p4", "p5", "p6", "p7", "p8", "p9", "p10", "p11"];

struct Values {
  vals: Vec<(&'static str, Value)>,
}

fn make_values(hooks: &GcHooks) -> Values {
  let fun = test_fun(hooks, "f", "m");
  let closure = hooks.manage_obj(Closure::new(fun, Captures::build(hooks, &[])));
  let class: ObjRef<Class> = test_class(hooks, "K");
  let instance = hooks.manage_obj(class);
  let native = hooks.manage_obj(Native::new(
    NativeMetaBuilder::fun("n", Arity::Fixed(0)).build(hooks),
    Box::new(Dummy {}),
  ));
  let items = [val!(1.0)];
  let list = List::new(hooks.manage_obj(list!(&items)));
  let map: ObjRef<Map<Value, Value>> = hooks.manage_obj(Map::default());
  let tuple = hooks.manage_obj(&[val!(1.0), val!(2.0)] as &[Value]);
  let method = hooks.manage_obj(Method::new(val!(instance), val!(closure)));
  let enumerator = hooks.manage_obj(Enumerator::new(Box::new(EmptyIter {})));
  let channel = hooks.manage_obj(Channel::sync(hooks));
  Values {
    vals: vec![
      ("nil", VALUE_NIL),
      ("bool", val!(true)),
      ("number", val!(1.5)),
      ("string", val!(hooks.manage_str("s"))),
      ("list", val!(list)),
      ("map", val!(map)),
      ("tuple", val!(tuple)),
      ("closure", val!(closure)),
      ("fun", val!(fun)),
      ("native", val!(native)),
      ("method", val!(method)),
      ("class", val!(class)),
      ("instance", val!(instance)),
      ("enumerator", val!(enumerator)),
      ("channel", val!(channel)),
    ],
  }
}

fn show_sig(r: Result<(), SignatureError>) -> String {
  match r {
    Ok(()) => "ok".into(),
    Err(SignatureError::LengthFixed(n)) => format!("len fixed {n}"),
    Err(SignatureError::LengthVariadic(n)) => format!("len variadic {n}"),
    Err(SignatureError::LengthDefaultLow(n)) => format!("len defaultLow {n}"),
    Err(SignatureError::LengthDefaultHigh(n)) => format!("len defaultHigh {n}"),
    Err(SignatureError::TypeWrong(i)) => format!("type {i}"),
  }
}

fn show_arity(r: Result<(), ArityError>) -> String {
  match r {
    Ok(()) => "ok".into(),
    Err(ArityError::Fixed(n)) => format!("len fixed {n}"),
    Err(ArityError::Variadic(n)) => format!("len variadic {n}"),
    Err(ArityError::DefaultLow(n)) => format!("len defaultLow {n}"),
    Err(ArityError::DefaultHigh(n)) => format!("len defaultHigh {n}"),
  }
}

/// classify the message of `check_if_valid_call` (parameters are named p0, p1, …; the receiver `self`)
fn show_civ(msg: &str, arity: Arity, is_method: bool) -> String {
  let off = if is_method { 1 } else { 0 };
  let num_after = |pat: &str| -> Option<usize> {
    let i = msg.find(pat)? + pat.len();
    msg[i..].split(|c: char| !c.is_ascii_digit()).next()?.parse().ok()
  };
  if msg == "todo" {
    return "type ?".into();
  }
  if let Some(i) = msg.find("'s parameter \"") {
    let rest = &msg[i + 14..];
    let name = rest.split('"').next().unwrap_or("");
    if name == "self" {
      return "type@param 0".into();
    }
    if let Some(k) = name.strip_prefix('p').and_then(|k| k.parse::<usize>().ok()) {
      return format!("type@param {}", k + off);
    }
    return format!("type-unknown-param {name}");
  }
  if let Some(n) = num_after("expected at least ") {
    return match arity {
      Arity::Variadic(_) => format!("len variadic {}", n + off),
      _ => format!("len defaultLow {}", n + off),
    };
  }
  if let Some(n) = num_after("expected at most ") {
    return format!("len defaultHigh {}", n + off);
  }
  if let Some(n) = num_after("expected ") {
    return format!("len fixed {}", n + off);
  }
  format!("unknown-message {msg}")
}

fn handle(line: &str, hooks: &GcHooks, context: &NoContext, values: &Values) -> String {
  let parts: Vec<&str> = line.split(';').map(|s| s.trim()).collect();
  if parts.len() != 4 {
    return "bad-op".into();
  }
  let atoks: Vec<&str> = parts[0].split_whitespace().collect();
  let arity = match parse_arity(&atoks) {
    Some(a) => a,
    None => return "bad-op".into(),
  };
  let mut params = vec![];
  for (i, t) in parts[1].split_whitespace().enumerate() {
    match parse_pkind(t) {
      Some(k) if i < NAMES.len() => params.push(ParameterBuilder::new(NAMES[i], k)),
      _ => return "bad-op".into(),
    }
  }
  let is_method = match parts[2] {
    "m" => true,
    "f" => false,
    _ => return "bad-op".into(),
  };
  let mut args = vec![];
  for t in parts[3].split_whitespace() {
    match values.vals.iter().find(|(n, _)| *n == t) {
      Some((_, v)) => args.push(*v),
      None => return "bad-op".into(),
    }
  }
  let params: &'static [ParameterBuilder] = Box::leak(params.into_boxed_slice());
  let builder = if is_method {
    NativeMetaBuilder::method("t", arity)
  } else {
    NativeMetaBuilder::fun("t", arity)
  }
  .with_params(params);
  let r = std::panic::catch_unwind(std::panic::AssertUnwindSafe(|| {
    let meta = builder.build(hooks);
    let sig = meta.signature.clone();
    let native = hooks.manage_obj(Native::new(meta, Box::new(Dummy {})));
    let civ = match native.check_if_valid_call(|| GcHooks::new(context), &args) {
      Ok(()) => "ok".to_string(),
      Err(msg) => show_civ(&msg, sig.arity, is_method),
    };
    let s = show_sig(sig.check(&args));
    let a = show_arity(sig.arity.check(args.len() as u8));
    format!("civ={civ} sig={s} arity={a}")
  }));
  match r {
    Ok(s) => s,
    Err(_) => "civ=panic sig=panic arity=panic".into(),
  }
}

/// `vh_sig natives`: look every row of the regenerated table up in the *real* standard library and report what
/// the registered object says about itself.
/// request : `<module path, dots; empty = global> ; <owner class or empty> ; <static 0|1> ; <name>`
/// response: `native method=<0|1> stack=<0|1>` | `missing <what>` | `not-native`
fn natives_main() {
  use laythe_core::{module::Module, object::ObjectKind, signature::NativeEnvironment, utils::IdEmitter, Ref};
  let context = NoContext::default();
  let hooks = GcHooks::new(&context);
  let mut emitter = IdEmitter::default();
  let std = laythe_lib::create_std_lib(&hooks, &mut emitter).expect("std lib");
  let root: Ref<Module> = std.root_module();
  let stdin = std::io::stdin();
  let stdout = std::io::stdout();
  let mut out = std::io::BufWriter::new(stdout.lock());
  for line in stdin.lock().lines() {
    let line = line.unwrap();
    let parts: Vec<&str> = line.split(';').map(|s| s.trim()).collect();
    let res = (|| -> String {
      if parts.len() != 4 {
        return "bad-op".into();
      }
      let mut module = root;
      for seg in parts[0].split('.').filter(|s| !s.is_empty()).skip(1) {
        module = match module.get_module(hooks.manage_str(seg)) {
          Some(m) => m,
          None => return format!("missing module {seg}"),
        };
      }
      let name = hooks.manage_str(parts[3]);
      let value = if parts[1].is_empty() {
        match module.get_symbol_by_name(name) {
          Some(v) => v,
          None => return "missing symbol".into(),
        }
      } else {
        // the class itself, or (Stdout, …) the class of an exported instance
        let mut class = None;
        for sym in module.symbols() {
          if !sym.is_obj() {
            continue;
          }
          let obj = sym.to_obj();
          match obj.kind() {
            ObjectKind::Class if &*obj.to_class().name() == parts[1] => class = Some(obj.to_class()),
            ObjectKind::Instance if &*obj.to_instance().class().name() == parts[1] => class = Some(obj.to_instance().class()),
            _ => {},
          }
        }
        let class = match class {
          Some(c) => c,
          None => return "missing class".into(),
        };
        let holder = if parts[2] == "1" {
          match class.meta_class() {
            Some(m) => *m,
            None => return "missing meta class".into(),
          }
        } else {
          class
        };
        match holder.get_method(&name) {
          Some(v) => v,
          None => return "missing method".into(),
        }
      };
      if !value.is_obj_kind(ObjectKind::Native) {
        return "not-native".into();
      }
      let native = value.to_obj().to_native();
      format!(
        "native method={} stack={}",
        native.is_method() as u8,
        matches!(native.environment(), NativeEnvironment::Normal) as u8
      )
    })();
    writeln!(out, "{res}").unwrap();
  }
  out.flush().unwrap();
}

fn main() {
  std::panic::set_hook(Box::new(|_| {}));
  if std::env::args().nth(1).as_deref() == Some("natives") {
    return natives_main();
  }
  let context = NoContext::default();
  let hooks = GcHooks::new(&context);
  let values = make_values(&hooks);
  let stdin = std::io::stdin();
  let stdout = std::io::stdout();
  let mut out = std::io::BufWriter::new(stdout.lock());
  for line in stdin.lock().lines() {
    let line = line.unwrap();
    writeln!(out, "{}", handle(&line, &hooks, &context, &values)).unwrap();
  }
  out.flush().unwrap();
}
