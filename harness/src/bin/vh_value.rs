//! `vh_value`: the `value` engine of C14.  Builds `laythe_core::value::Value`s through the public
//! constructors (`Value::from(f64)`, `val!(bool)`, `VALUE_NIL`, `VALUE_UNDEFINED`, object handles
//! allocated through `GcHooks`/`NoContext`) and prints what the type tests, `kind()`, the accessors,
//! `==` and `Hash` answer.  Same line protocol as `lean/Driver/NanBoxMain.lean`; built once per
//! value representation (`--features nan_boxing`).
//!
//! requests                      responses
//!   objs                          `objs <hexaddr>*`  (addresses of the harness' objects)
//!   v <spec> | pool <spec>        `<fields> | h=<digest> type=<value_type> disp=<Display>`
//!   alleq                         `eq i-j ... | asym=<pairs> hneq=<pairs>`
//!   clear                         ok
//! <spec> ::= nil | undef | true | false | num <hex16> | obj <k>
use laythe_core::{
  Captures,
  hooks::{GcHooks, NoContext},
  list,
  module::Module,
  object::{Channel, Class, Closure, Fun, List, LyBox, Map, ObjectKind},
  val,
  value::{Nil, Value, ValueKind, VALUE_FALSE, VALUE_NIL, VALUE_TRUE, VALUE_UNDEFINED},
};
use std::{
  collections::hash_map::DefaultHasher,
  hash::{Hash, Hasher},
  io::{BufRead, Write},
};

/// Records the sequence of `write_*` calls a `Hash` impl makes.
#[derive(Default)]
struct Rec {
  items: Vec<String>,
}

impl Hasher for Rec {
  fn finish(&self) -> u64 {
    0
  }
  fn write(&mut self, bytes: &[u8]) {
    self.items.push(format!("bytes:{}", bytes.iter().map(|b| format!("{:02x}", b)).collect::<String>()));
  }
  fn write_u8(&mut self, i: u8) {
    self.items.push(format!("u8:{:x}", i));
  }
  fn write_u16(&mut self, i: u16) {
    self.items.push(format!("u16:{:x}", i));
  }
  fn write_u32(&mut self, i: u32) {
    self.items.push(format!("u32:{:x}", i));
  }
  fn write_u64(&mut self, i: u64) {
    self.items.push(format!("u64:{:x}", i));
  }
  fn write_u128(&mut self, i: u128) {
    self.items.push(format!("u128:{:x}", i));
  }
  fn write_usize(&mut self, i: usize) {
    self.items.push(format!("usize:{:x}", i));
  }
  fn write_i8(&mut self, i: i8) {
    self.items.push(format!("i8:{:x}", i));
  }
  fn write_i16(&mut self, i: i16) {
    self.items.push(format!("i16:{:x}", i));
  }
  fn write_i32(&mut self, i: i32) {
    self.items.push(format!("i32:{:x}", i));
  }
  fn write_i64(&mut self, i: i64) {
    self.items.push(format!("i64:{:x}", i));
  }
  fn write_i128(&mut self, i: i128) {
    self.items.push(format!("i128:{:x}", i));
  }
  fn write_isize(&mut self, i: isize) {
    self.items.push(format!("isize:{:x}", i));
  }
}

struct Obj {
  value: Value,
  addr: u64,
  kind: ObjectKind,
  /// expected string content for strings (checked through `to_obj().to_str()`)
  text: Option<String>,
}

fn parse_addr(p: String) -> u64 {
  u64::from_str_radix(p.trim_start_matches("0x"), 16).unwrap_or(0)
}

fn make_objects(hooks: &GcHooks) -> Vec<Obj> {
  let mut v = vec![];
  let mut add_str = |s: String| {
    let h = hooks.manage_str(&s);
    v.push(Obj { value: val!(h), addr: parse_addr(format!("{:p}", h)), kind: ObjectKind::String, text: Some(s) });
  };
  add_str("o0".to_string());
  add_str("o1".to_string());
  add_str("x".repeat(1 << 21)); // large allocation: a mapping far from the small heap
  add_str(String::new());
  for k in 0..6 {
    add_str(format!("pad{}", "-".repeat(k * 37)));
  }
  let items = [VALUE_NIL, VALUE_TRUE, val!(1.5)];
  let raw = hooks.manage_obj(list!(&items));
  v.push(Obj { value: val!(List::new(raw)), addr: parse_addr(format!("{:p}", raw)), kind: ObjectKind::List, text: None });
  let raw2 = hooks.manage_obj(list!());
  v.push(Obj { value: val!(raw2), addr: parse_addr(format!("{:p}", raw2)), kind: ObjectKind::List, text: None });
  let mut map: Map<Value, Value> = Map::default();
  map.insert(VALUE_NIL, VALUE_TRUE);
  let map = hooks.manage_obj(map);
  v.push(Obj { value: val!(map), addr: map.to_usize() as u64, kind: ObjectKind::Map, text: None });
  let name = hooks.manage_str("K");
  let class = hooks.manage_obj(Class::bare(name));
  v.push(Obj { value: val!(class), addr: class.to_usize() as u64, kind: ObjectKind::Class, text: None });
  let module = hooks.manage(Module::new(hooks, class, "m", 0));
  let fun = hooks.manage_obj(Fun::stub(hooks, name, module));
  v.push(Obj { value: val!(fun), addr: fun.to_usize() as u64, kind: ObjectKind::Fun, text: None });
  let closure = hooks.manage_obj(Closure::new(fun, Captures::build(hooks, &[])));
  v.push(Obj { value: val!(closure), addr: closure.to_usize() as u64, kind: ObjectKind::Closure, text: None });
  let bx = hooks.manage_obj(LyBox::new(val!(2.0)));
  v.push(Obj { value: val!(bx), addr: bx.to_usize() as u64, kind: ObjectKind::LyBox, text: None });
  let ch = hooks.manage_obj(Channel::sync(hooks));
  v.push(Obj { value: val!(ch), addr: ch.to_usize() as u64, kind: ObjectKind::Channel, text: None });
  v
}

/// all the ways the public API builds the requested value (first = canonical)
fn build(objs: &[Obj], spec: &[&str]) -> Option<(Vec<Value>, Option<usize>)> {
  match spec {
    ["nil"] => Some((vec![VALUE_NIL, Value::from(Nil()), val!(Nil())], None)),
    ["undef"] => Some((vec![VALUE_UNDEFINED], None)),
    ["true"] => Some((vec![val!(true), VALUE_TRUE, Value::from(1 == 1)], None)),
    ["false"] => Some((vec![val!(false), VALUE_FALSE, Value::from(1 == 2)], None)),
    ["num", h] => {
      let bits = u64::from_str_radix(h, 16).ok()?;
      let f = f64::from_bits(bits);
      Some((vec![Value::from(f), val!(f)], None))
    },
    ["obj", k] => {
      let k: usize = k.parse().ok()?;
      objs.get(k).map(|o| (vec![o.value], Some(k)))
    },
    _ => None,
  }
}

fn b01(b: bool) -> &'static str {
  if b {
    "1"
  } else {
    "0"
  }
}

fn kind_name(k: ValueKind) -> &'static str {
  match k {
    ValueKind::Bool => "Bool",
    ValueKind::Nil => "Nil",
    ValueKind::Undefined => "Undefined",
    ValueKind::Number => "Number",
    ValueKind::Obj => "Obj",
  }
}

#[cfg(feature = "nan_boxing")]
fn raw_bits(v: Value) -> String {
  // in the boxed representation `to_num` is a plain reinterpretation of the word
  format!("{:016x}", v.to_num().to_bits())
}

#[cfg(not(feature = "nan_boxing"))]
fn raw_bits(_v: Value) -> String {
  "-".to_string()
}

fn hash_key(v: Value) -> String {
  let mut r = Rec::default();
  v.hash(&mut r);
  r.items.join(",")
}

fn digest(v: Value) -> u64 {
  let mut h = DefaultHasher::new();
  v.hash(&mut h);
  h.finish()
}

/// the fields compared with the model
fn fields(objs: &[Obj], v: Value, obj_spec: Option<usize>) -> String {
  let kind = match std::panic::catch_unwind(|| v.kind()) {
    Ok(k) => kind_name(k).to_string(),
    Err(_) => "PANIC".to_string(),
  };
  let tonum = if v.is_num() { format!("{:016x}", v.to_num().to_bits()) } else { "-".to_string() };
  let tobool = if v.is_bool() { b01(v.to_bool()).to_string() } else { "-".to_string() };
  let toobj = if v.is_obj() {
    match obj_spec {
      None => "?".to_string(), // a number whose bits carry the object tag: never dereferenced
      Some(_) => {
        let p = parse_addr(format!("{:p}", v.to_obj()));
        match objs.iter().position(|o| o.addr == p) {
          Some(i) => {
            // only now is the pointer known to be a live object: read through it
            let o = &objs[i];
            let obj = v.to_obj();
            let mut ok = obj.is_kind(o.kind) && v.is_obj_kind(o.kind) && obj.kind() == o.kind;
            if let Some(t) = &o.text {
              ok = ok && &*obj.to_str() == t.as_str();
            }
            if ok {
              i.to_string()
            } else {
              format!("BAD-CONTENT:{}", i)
            }
          },
          None => format!("BAD:{:016x}", p),
        }
      },
    }
  } else {
    "-".to_string()
  };
  format!(
    "kind={} nil={} undef={} bool={} false={} num={} obj={} tonum={} tobool={} toobj={} raw={} hash={}",
    kind,
    b01(v.is_nil()),
    b01(v.is_undefined()),
    b01(v.is_bool()),
    b01(v.is_false()),
    b01(v.is_num()),
    b01(v.is_obj()),
    tonum,
    tobool,
    toobj,
    raw_bits(v),
    hash_key(v)
  )
}

fn describe(objs: &[Obj], alts: &[Value], obj_spec: Option<usize>, is_num_spec: bool) -> String {
  let v = alts[0];
  let main = fields(objs, v, obj_spec);
  let mut out = main.clone();
  for a in &alts[1..] {
    if fields(objs, *a, obj_spec) != main || !(*a == v || is_num_spec) {
      out.push_str(" ALT-MISMATCH");
      break;
    }
  }
  // Display / value_type dereference objects: only when the value really is what was asked for
  let safe = if is_num_spec { v.is_num() } else if obj_spec.is_some() { main.contains(" toobj=") && !main.contains("BAD") } else { !v.is_obj() && !v.is_num() };
  let (ty, disp) = if safe {
    match std::panic::catch_unwind(|| (v.value_type().to_string(), format!("{}", v))) {
      Ok(r) => r,
      Err(_) => ("PANIC".to_string(), "PANIC".to_string()),
    }
  } else {
    ("-".to_string(), "-".to_string())
  };
  let disp = if disp.len() > 80 { format!("{}..({})", &disp[..40], disp.len()) } else { disp };
  format!("{} | h={:016x} type={} disp={}", out, digest(v), ty, disp.replace('\n', "\\n"))
}

fn main() {
  std::panic::set_hook(Box::new(|_| {}));
  let context = NoContext::default();
  let hooks = GcHooks::new(&context);
  let objs = make_objects(&hooks);
  let mut pool: Vec<Value> = vec![];
  let stdin = std::io::stdin();
  let stdout = std::io::stdout();
  let mut out = std::io::BufWriter::new(stdout.lock());
  for line in stdin.lock().lines() {
    let line = line.unwrap();
    let toks: Vec<&str> = line.trim().split(' ').filter(|t| !t.is_empty()).collect();
    let res: String = match toks.as_slice() {
      ["objs"] => format!("objs {}", objs.iter().map(|o| format!("{:x}", o.addr)).collect::<Vec<_>>().join(" ")),
      ["clear"] => {
        pool.clear();
        "ok".to_string()
      },
      ["alleq"] => {
        let digests: Vec<u64> = pool.iter().map(|v| digest(*v)).collect();
        let (mut eq, mut asym, mut hneq) = (vec![], vec![], vec![]);
        for i in 0..pool.len() {
          for j in i..pool.len() {
            let e = pool[i] == pool[j];
            let ne = pool[i] != pool[j];
            if e != (pool[j] == pool[i]) || e == ne {
              asym.push(format!("{}-{}", i, j));
            }
            if e {
              eq.push(format!("{}-{}", i, j));
              if digests[i] != digests[j] || hash_key(pool[i]) != hash_key(pool[j]) {
                hneq.push(format!("{}-{}", i, j));
              }
            }
          }
        }
        format!("eq {} | asym={} hneq={}", eq.join(" "), asym.join(","), hneq.join(","))
      },
      [cmd, spec @ ..] if *cmd == "v" || *cmd == "pool" => match build(&objs, spec) {
        Some((alts, obj_spec)) => {
          if *cmd == "pool" {
            pool.push(alts[0]);
          }
          describe(&objs, &alts, obj_spec, spec[0] == "num")
        },
        None => "bad-op".to_string(),
      },
      _ => "bad-op".to_string(),
    };
    writeln!(out, "{}", res).unwrap();
  }
  out.flush().unwrap();
}
