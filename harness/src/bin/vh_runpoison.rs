//! `vh_runpoison`: `vharness runbatch` under a global allocator that overwrites every block with 0xDD before it
//! hands it back to the system.  A use after free then reads poison instead of the bytes the object last had
//! (which on a plain allocator usually still look valid), so a missing trace / missing root shows as a crash or a
//! different result under a collection schedule instead of going unnoticed.
use std::alloc::{GlobalAlloc, Layout, System};

struct PoisonAlloc;

unsafe impl GlobalAlloc for PoisonAlloc {
  unsafe fn alloc(&self, layout: Layout) -> *mut u8 {
    System.alloc(layout)
  }

  unsafe fn alloc_zeroed(&self, layout: Layout) -> *mut u8 {
    System.alloc_zeroed(layout)
  }

  unsafe fn dealloc(&self, ptr: *mut u8, layout: Layout) {
    std::ptr::write_bytes(ptr, 0xDD, layout.size());
    System.dealloc(ptr, layout);
  }

  unsafe fn realloc(&self, ptr: *mut u8, layout: Layout, new_size: usize) -> *mut u8 {
    // always move, so that the old block is poisoned like any other released block
    let new_layout = Layout::from_size_align_unchecked(new_size, layout.align());
    let p = System.alloc(new_layout);
    if !p.is_null() {
      std::ptr::copy_nonoverlapping(ptr, p, layout.size().min(new_size));
      std::ptr::write_bytes(ptr, 0xDD, layout.size());
      System.dealloc(ptr, layout);
    }
    p
  }
}

#[global_allocator]
static GLOBAL: PoisonAlloc = PoisonAlloc;

fn main() {
  std::process::exit(vharness::run::main_batch());
}
