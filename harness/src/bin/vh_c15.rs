//! C15 helper binary (front-end totality).
//!
//! `vh_c15 scan`   — one hex-encoded UTF-8 source text per stdin line through the REAL parser
//!                   (`laythe_vm::compiler::Parser`, the only public door to the private scanner):
//!                   prints `status|D start end hexmsg;...|L off,off,...` where `D` are the primary
//!                   labels of the diagnostics (for scanner error tokens: message = token lexeme, range =
//!                   token span) and `L` the line-offset table the scanner built.
//! `vh_c15 batch`  — like `vharness runbatch` (same request words, plus `--compile-only`) but with a panic
//!                   hook that records the panic *location*, printed as `"loc":"file:line"`; used to give
//!                   every crash a precise signature.
use laythe_core::{Allocator, NO_GC};
use laythe_vm::{
  compiler::{verif_peephole, Parser},
  source::{Source, VM_FILE_TEST_ID},
};
use std::{
  cell::RefCell,
  io::{BufRead, Write},
  path::PathBuf,
};
use vharness::run::{json_str, outcome_json, parse_opts, run_with};

thread_local! {
  static LOC: RefCell<String> = RefCell::new(String::new());
  static MSG: RefCell<String> = RefCell::new(String::new());
}

fn install_hook() {
  std::panic::set_hook(Box::new(|info| {
    let loc = info
      .location()
      .map(|l| {
        let f = l.file();
        // keep the path from the crate directory on (stable across workspaces)
        let short = match f.find("laythe_") {
          Some(i) => &f[i..],
          None => f,
        };
        format!("{}:{}", short, l.line())
      })
      .unwrap_or_default();
    LOC.with(|c| *c.borrow_mut() = loc);
    let msg = if let Some(s) = info.payload().downcast_ref::<&str>() {
      s.to_string()
    } else if let Some(s) = info.payload().downcast_ref::<String>() {
      s.clone()
    } else {
      "?".to_string()
    };
    MSG.with(|c| *c.borrow_mut() = msg.replace('\n', " "));
  }));
}

fn unhex(s: &str) -> Option<String> {
  let b = s.trim().as_bytes();
  if b.len() % 2 != 0 {
    return None;
  }
  let mut out = Vec::with_capacity(b.len() / 2);
  for i in (0..b.len()).step_by(2) {
    let h = (b[i] as char).to_digit(16)?;
    let l = (b[i + 1] as char).to_digit(16)?;
    out.push((h * 16 + l) as u8);
  }
  String::from_utf8(out).ok()
}

fn hex(s: &str) -> String {
  s.bytes().map(|b| format!("{:02x}", b)).collect()
}

fn scan_one(src: &str) -> String {
  let mut gc = Allocator::default();
  let source = Source::new(gc.manage_str(src, &NO_GC));
  let (ast, offsets) = Parser::new(&source, VM_FILE_TEST_ID).parse();
  let mut ds = vec![];
  let status = match &ast {
    Ok(_) => "ok",
    Err(errors) => {
      for e in errors.iter() {
        let (s, t) = e
          .labels
          .first()
          .map(|l| (l.range.start, l.range.end))
          .unwrap_or((usize::MAX, usize::MAX));
        ds.push(format!("D {} {} {}", s, t, hex(&e.message)));
      }
      "err"
    },
  };
  let mut ls = vec![];
  for i in 0..offsets.lines() {
    match offsets.line_range(i) {
      Ok(r) => ls.push(r.start.to_string()),
      Err(_) => ls.push("?".to_string()),
    }
  }
  format!("{}|{}|L {}", status, ds.join(";"), ls.join(","))
}

fn main_scan() -> i32 {
  install_hook();
  let stdout = std::io::stdout();
  for line in std::io::stdin().lock().lines() {
    let line = line.unwrap();
    let o = match unhex(&line) {
      None => "bad-hex".to_string(),
      Some(src) => match std::panic::catch_unwind(|| scan_one(&src)) {
        Ok(s) => s,
        Err(_) => format!(
          "PANIC {} {}",
          LOC.with(|c| c.borrow().clone()),
          MSG.with(|c| c.borrow().clone())
        ),
      },
    };
    let mut out = stdout.lock();
    writeln!(out, "{}", o).unwrap();
    out.flush().unwrap();
  }
  0
}

fn main_batch() -> i32 {
  install_hook();
  let stdout = std::io::stdout();
  for line in std::io::stdin().lock().lines() {
    let line = line.unwrap();
    let mut words: Vec<String> = line.split_whitespace().map(|s| s.to_string()).collect();
    let compile_only = words.iter().any(|w| w == "--compile-only");
    words.retain(|w| w != "--compile-only");
    let (opts, files) = parse_opts(&words);
    for f in files {
      LOC.with(|c| c.borrow_mut().clear());
      let rec = if opts.repl {
        let o = run_with(PathBuf::from("repl"), "", &opts);
        outcome_json(&f, &o)
      } else {
        match std::fs::read_to_string(&f) {
          Ok(src) => {
            verif_peephole::set_compile_only(compile_only);
            let _ = verif_peephole::take_log();
            let o = run_with(PathBuf::from(&f), &src, &opts);
            verif_peephole::set_compile_only(false);
            let _ = verif_peephole::take_log();
            outcome_json(&f, &o)
          },
          Err(e) => format!(
            "{{\"file\":{},\"status\":\"UNREADABLE\",\"stdout\":\"\",\"stderr\":{}}}",
            json_str(&f),
            json_str(&e.to_string())
          ),
        }
      };
      // splice the panic location into the record
      let loc = LOC.with(|c| c.borrow().clone());
      let rec = format!("{},\"loc\":{}}}", &rec[..rec.len() - 1], json_str(&loc));
      let mut out = stdout.lock();
      writeln!(out, "{}", rec).unwrap();
      out.flush().unwrap();
    }
  }
  0
}

fn main() {
  let args: Vec<String> = std::env::args().collect();
  let code = match args.get(1).map(|s| s.as_str()) {
    Some("scan") => main_scan(),
    Some("batch") => main_batch(),
    _ => {
      eprintln!("usage: vh_c15 <scan|batch>");
      2
    },
  };
  std::process::exit(code);
}
