//! `peephole`: one instruction stream per line (`instr@line;instr@line;...`) through the real
//! `peephole_optimize` (hook `laythe_vm::compiler::verif_peephole`).
use laythe_vm::compiler::verif_peephole;
use std::io::{BufRead, Write};

pub fn main() -> i32 {
  std::panic::set_hook(Box::new(|_| {}));
  let stdin = std::io::stdin();
  let stdout = std::io::stdout();
  let mut out = std::io::BufWriter::new(stdout.lock());
  for line in stdin.lock().lines() {
    let line = line.unwrap();
    let r = std::panic::catch_unwind(|| verif_peephole::optimize_text(&line));
    match r {
      Ok(Ok(s)) => writeln!(out, "{}", s).unwrap(),
      Ok(Err(e)) => writeln!(out, "bad-op {}", e).unwrap(),
      Err(_) => writeln!(out, "PANIC").unwrap(),
    }
  }
  0
}
